#!/usr/bin/env python3
"""
Verify an independently written breaking change and, if it is valid, keep it under /verif/seeded/<id>/.
usage: tools/verify_seed.py <PID> <A|B> [--no-suite]
  1. fresh scratch worktree of /repo HEAD under /tmp
  2. demo on the unchanged code must exit 0
  3. apply patch; demo must exit != 0
  4. the pinned suite (BASELINE.json's stable_pass) must still pass with the change
  5. run `./check PID --tier quick` against the changed worktree (VERIF_REPO) and record the verdict + replay result
  6. remove the worktree
"""
import json, os, shutil, subprocess, sys, time

pid, which = sys.argv[1], sys.argv[2]
suite = "--no-suite" not in sys.argv
src = {"A": "/tmp/seed_%s", "B": "/tmp/seed_%s", "C": "/tmp/seed2_%s", "D": "/tmp/seed2_%s", "E": "/tmp/seed3_%s", "F": "/tmp/seed3_%s", "G": "/root/scratch/seed4_%s", "H": "/root/scratch/seed4_%s", "I": "/root/scratch/seed5_%s", "J": "/root/scratch/seed5_%s", "K": "/root/scratch/seed6_%s", "L": "/root/scratch/seed6_%s", "M": "/root/scratch/seed7_%s", "N": "/root/scratch/seed7_%s", "O": "/root/scratch/seed8_%s", "P": "/root/scratch/seed8_%s", "Q": "/root/scratch/seed9_%s", "R": "/root/scratch/seed9_%s", "S": "/root/scratch/seed10_%s", "T": "/root/scratch/seed10_%s"}[which] % pid + "/seed_out/" + which
sid = "%s-%s" % (pid, which)
wt = "/root/scratch/vseed_%s" % sid
dst = "/verif/seeded/%s" % sid
if not os.path.exists(src + "/patch.diff"):
    # re-verification of a kept seed: take patch and demo from /verif/seeded, keep its meta
    import tempfile
    tmp = tempfile.mkdtemp(prefix="reseed_")
    for f in ("patch.diff", "demo.py", "meta.json"):
        shutil.copy(os.path.join(dst, f), os.path.join(tmp, f))
    src = tmp


def sh(cmd, **kw):
    p = subprocess.run(cmd, shell=True, stdout=subprocess.PIPE, stderr=subprocess.STDOUT, **kw)
    return p.returncode, p.stdout.decode("utf-8", "replace")


sh("git -C /repo worktree remove --force %s" % wt)
sh("rm -rf %s; git -C /repo worktree prune" % wt)
base = os.environ.get("VSEED_BASE", "HEAD")      # a seed written before a later repair of the same code is verified against its own base
rc, out = sh("git -C /repo worktree add -q --detach %s %s" % (wt, base))
assert rc == 0, out
res = {"seed": sid, "property": pid, "repo_commit": sh("git -C /repo rev-parse %s" % os.environ.get("VSEED_BASE", "HEAD"))[1].strip()}
try:
    env = "cd %s && PYTHONPATH=%s" % (wt, wt)
    rc0, out0 = sh("%s timeout 600 /venv/bin/python %s/demo.py" % (env, src))
    res["demo_unchanged"] = {"rc": rc0, "tail": out0[-400:]}
    rc, out = sh("git -C %s apply %s/patch.diff" % (wt, src))
    res["apply"] = {"rc": rc, "out": out[-300:]}
    rc1, out1 = sh("%s timeout 600 /venv/bin/python %s/demo.py" % (env, src))
    res["demo_changed"] = {"rc": rc1, "tail": out1[-600:]}
    if suite:
        t = time.time()
        xml = "/root/scratch/vseed_%s.xml" % sid
        # private /tmp: the suite uses fixed paths there and other runs may be going on
        sh("unshare -m sh -c 'mount -t tmpfs tmpfs /tmp && %s /venv/bin/python -m pytest -q -p no:cacheprovider --timeout=900 --continue-on-collection-errors --junitxml=%s > /dev/null 2>&1'" % (env, xml))
        rc, out = sh("python3 /verif/tools/suite_vs_baseline.py %s" % xml)
        res["suite"] = {"rc": rc, "out": out[-800:], "secs": round(time.time() - t)}
        if rc != 0:
            # the suite shares fixed /tmp paths between concurrent runs: re-run only the tests that did not pass
            names = [l.split("NOT PASSING:")[1].split()[0] for l in out.splitlines() if "NOT PASSING:" in l]
            ids = " ".join("'%s'" % (n.rsplit("::", 1)[0].replace(".", "/") + ".py::" + n.rsplit("::", 1)[1]) for n in names[:20])
            rc2, out2 = sh("unshare -m sh -c \"mount -t tmpfs tmpfs /tmp && %s /venv/bin/python -m pytest -q -p no:cacheprovider %s 2>&1 | tail -3\"" % (env, ids))
            res["suite"]["rerun_of_not_passing"] = out2[-400:]
            res["suite"]["rc_after_rerun"] = 0 if (" passed" in out2 and " failed" not in out2) else 1
        if os.path.exists(xml):
            os.remove(xml)
    rcq, outq = sh("cd /verif && VERIF_REPO=%s timeout 900 ./check %s --tier quick" % (wt, pid))
    lines = [l for l in outq.splitlines() if "WARNING conda" not in l]
    res["check"] = {"rc": rcq, "lines": lines[-8:]}
    rp = None
    for l in lines:
        if l.startswith("VIOLATION") and "replay=" in l:
            rp = l.split("replay=")[1].split()[0]
            break
    if rp:
        rcr, outr = sh("cd /verif && VERIF_REPO=%s timeout 600 ./check %s --replay %s" % (wt, pid, rp))
        res["replay"] = {"rc": rcr, "tail": [l for l in outr.splitlines() if "WARNING conda" not in l][-6:]}
        try:
            res["replay_file"] = json.load(open("/verif/" + rp))
        except Exception:
            pass
finally:
    sh("git -C /repo worktree remove --force %s" % wt)
    sh("git -C /repo worktree prune")
valid = res["demo_unchanged"]["rc"] == 0 and res.get("apply", {}).get("rc") == 0 and res["demo_changed"]["rc"] != 0 and \
    (not suite or res["suite"]["rc"] == 0 or res["suite"].get("rc_after_rerun") == 0)
res["valid"] = valid
res["caught"] = res.get("check", {}).get("rc") == 1
if valid:
    os.makedirs(dst, exist_ok=True)
    shutil.copy(src + "/patch.diff", dst + "/patch.diff")
    shutil.copy(src + "/demo.py", dst + "/demo.py")
    meta = json.load(open(src + "/meta.json"))
    old = meta.get("verified", {})
    meta["verified"] = {k: res[k] for k in res if k not in ("replay_file",)}
    if not suite and "suite" in old:
        # re-verification of the check verdict only: keep the suite result of the full verification
        meta["verified"]["suite"] = old["suite"]
        meta["verified"]["suite_verified_at"] = old.get("suite_verified_at", old.get("repo_commit", "earlier verification"))
    meta["verified"]["how"] = "tools/verify_seed.py: scratch worktree of /repo HEAD; demo without/with patch; pinned suite vs BASELINE stable_pass; ./check against the changed worktree via VERIF_REPO; replay"
    if "replay_file" in res:
        rf = res["replay_file"]
        meta["verified"]["replay_summary"] = {"kind": rf.get("kind"), "desc": str(rf.get("desc"))[:600], "broken": rf.get("broken") if rf.get("kind") == "broken-tie" else None}
    json.dump(meta, open(dst + "/meta.json", "w"), indent=1, default=str)
print(json.dumps({k: res[k] for k in ("seed", "valid", "caught")}), res.get("check", {}).get("lines", [])[-3:], res.get("suite", {}).get("out", "")[:200])
